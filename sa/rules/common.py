"""Helpers shared by the property rules."""
from iosa import ir, guard
from iosa.ir import sk, pp, cval, apath, walk, ASSIGN_OPS
from iosa.facts import AnalysisBroken

INCDEC = ("post++", "post--", "pre++", "pre--")


def server_units(P):
    return P.binary("iodined")


def client_units(P):
    return P.binary("iodine")


def writes_in(P, f):
    """Every write of function f: (node, path or None, type, value expr or None, kind).
    kind: 'assign' | 'incdec' | 'extern:<fn>' | 'callee:<fn>'."""
    out = []
    for b, x in f.all_nodes():
        k = x.get("k")
        if k == "Bin" and x["op"] in ASSIGN_OPS:
            out.append((x, apath(x["a"][0]), sk(x["a"][0]).get("t"), x["a"][1] if x["op"] == "=" else None, "assign"))
        elif k == "Un" and x["op"] in INCDEC:
            out.append((x, apath(x["a"][0]), sk(x["a"][0]).get("t"), None, "incdec"))
        elif k == "Decl":
            pass
        elif k == "Call":
            if P.callee(x, f) is None and x.get("fn"):
                for pth, pt in P.extern_writes(x):
                    out.append((x, pth, pt, None, "extern:" + x["fn"]))
    return out


def users_access(p):
    """For an access path rooted at the session table `users[x]...` return
    (index key, first field name or None); else None."""
    if p is None or len(p) < 2:
        return None
    r = p[0]
    if r[0] != "v" or r[1] != "users" or r[3] != "global":
        return None
    if p[1][0] == "i":
        fld = p[2][2] if len(p) > 2 and p[2][0] == "f" else None
        return p[1][1], fld
    if p[1][0] == "d":
        fld = p[2][2] if len(p) > 2 and p[2][0] == "f" else None
        return "0", fld
    return None


def users_subscripts(f):
    """All `users[e]` subscript nodes of f: (node, index expr)."""
    out = []
    for b, x in f.all_nodes():
        if x.get("k") == "Sub":
            base = sk(x["a"][0])
            if base.get("k") == "Ref" and base["ref"]["name"] == "users" and base["ref"]["rk"] == "global":
                out.append((x, sk(x["a"][1])))
    return out


def param_of(f, e):
    """If expression e is a plain reference to a parameter of f that f never
    assigns, return its index."""
    e = sk(e)
    if e.get("k") != "Ref" or e["ref"]["rk"] != "param":
        return None
    i = f.param_index(e["ref"]["id"])
    if i is None:
        return None
    if e["ref"]["id"] in assigned_vars(f):
        return None
    return i


_assigned = {}


def assigned_vars(f):
    if id(f) not in _assigned:
        s = set()
        for b, x in f.all_nodes():
            t = None
            if x.get("k") == "Bin" and x["op"] in ASSIGN_OPS:
                t = x["a"][0]
            elif x.get("k") == "Un" and x["op"] in INCDEC:
                t = x["a"][0]
            elif x.get("k") == "Un" and x["op"] == "&":
                t = x["a"][0]      # address taken: may be written elsewhere
            if t is not None:
                p = apath(t)
                if p is not None and len(p) == 1:
                    s.add(p[0][2])
        _assigned[id(f)] = s
    return _assigned[id(f)]


def fmt_d(d, limit=12):
    fs = sorted(repr(f) for f in d if f.kind == "cmp")
    return fs[:limit] + (["... (%d more)" % (len(fs) - limit)] if len(fs) > limit else [])


def find_calls(P, units, name):
    out = []
    for f in P.funcs(units):
        for b, c in f.calls(name):
            out.append((f, b, c))
    return out


def in_range_facts(d, xkey, bounds=("created_users", "usercount")):
    if xkey.lstrip("-").isdigit():
        return int(xkey) == 0
    lo = guard.d_holds(d, ">=", xkey, 0)
    hi = any(guard.d_holds(d, "<", xkey, b) for b in bounds)
    return lo and hi


def check_obligations(P, E, chk, rid, reach, sites, form_ok, what, call_kinds=("call",)):
    """Discharge `sites` = [(func, node, index expr or None, kind, description)].

    form_ok(d, xk, kind) returns the name of the accepted guard form that
    disjunct d establishes for session index key xk, or None.  A site whose
    index is a never-assigned parameter of its function and that is not
    discharged locally becomes an obligation on every call site (kind
    'call'), transitively.  Returns {function name: [param names]} of the
    functions that carry such an obligation."""
    reach_ids = {id(f) for f in reach}
    funcs = {id(f): f for f in reach}
    requires = {}

    def one(f, node, xexpr, kind, desc, reason=None):
        an = E.analysis(f)
        ds = an.before_node(node["n"])
        if ds is None:
            chk.site(rid, f, ir.loc(node), desc, True, "unreachable code")
            return
        xk = None if xexpr is None else (pp(xexpr) if cval(sk(xexpr)) is None else str(cval(sk(xexpr))))
        forms = set()
        bad = []
        for d in ds:
            fm = form_ok(d, xk, kind)
            if fm:
                forms.add(fm)
            else:
                bad.append(d)
        if not bad:
            chk.site(rid, f, ir.loc(node), desc, True, "guard: " + ", ".join(sorted(forms)))
            return
        pi = param_of(f, xexpr) if xexpr is not None else None
        if pi is not None:
            new = pi not in requires.setdefault(id(f), {})
            if new:
                requires[id(f)][pi] = reason or "%s at %s:%d" % (desc, f.unit.file, ir.loc(node))
                work.append(id(f))
            chk.site(rid, f, ir.loc(node), desc, True,
                     "obligation moved to the callers of %s (parameter %s)" % (f.name, f.params[pi]["ref"]["name"]))
            return
        chk.site(rid, f, ir.loc(node), desc, False,
                 ("no dominating %s(%s) on some path" % (what, xk or "any session")) + (" [needed by %s]" % reason if reason else ""),
                 witness={"facts_on_a_failing_path": fmt_d(bad[0], 30), "forms_seen_on_other_paths": sorted(forms)})

    work = []
    for f, node, xexpr, kind, desc in sites:
        one(f, node, xexpr, kind, desc)
    done = set()
    while work:
        fid = work.pop()
        f = funcs[fid]
        for pi, reason in list(requires[fid].items()):
            if (fid, pi) in done:
                continue
            done.add((fid, pi))
            callers = [(g, c) for g, c in P.callers_of(f) if id(g) in reach_ids]
            if not callers:
                chk.site(rid, f, f.line, "entry point %s needs %s(%s)" % (f.name, what, f.params[pi]["ref"]["name"]),
                         False, "no caller establishes it (%s)" % reason)
            for g, c in callers:
                args = c.get("a", [])
                if pi >= len(args):
                    continue
                one(g, c, sk(args[pi]), call_kinds[0],
                    "call %s(%s=%s)" % (f.name, f.params[pi]["ref"]["name"], pp(sk(args[pi]))), reason)
    return {funcs[fid].name: [funcs[fid].params[i]["ref"]["name"] for i in sorted(ps)] for fid, ps in requires.items()}


def users_index_expr(e):
    for x in walk(e):
        if x.get("k") == "Sub":
            b = sk(x["a"][0])
            if b.get("k") == "Ref" and b["ref"]["name"] == "users" and b["ref"]["rk"] == "global":
                return sk(x["a"][1])
    return None


def users_write_sites(P, f, skip_fields=()):
    """(node, index expr, index key, field) for every write into users[x].F in f."""
    out = []
    for node, pth, pt, val, kind in writes_in(P, f):
        ua = users_access(pth)
        if ua is None:
            continue
        xk, fld = ua
        if fld in skip_fields:
            continue
        tgt = node["a"][0] if node.get("k") in ("Bin", "Un") else None
        xexpr = users_index_expr(tgt) if tgt is not None else None
        if xexpr is None and node.get("k") == "Call":
            for a in node.get("a", ()):
                if ir.pointee_path(a) == pth:
                    xexpr = users_index_expr(a)
        if xexpr is None:
            continue
        out.append((node, xexpr, xk, fld, val, kind))
    return out


# ------------------------------------------------------------- liveness predicates

def _now_resolver(d):
    """Atoms that are variables holding time(NULL) are rewritten to time(0)."""
    m = {}
    for f in d:
        g = f.fact if f.kind == "hist" else f
        if f.kind in ("cmp", "hist") and g.op == "==" and g.key[2] == "time(0)" and isinstance(g.key[0], str) \
                and g.key[0].isidentifier():
            m[g.key[0]] = "time(0)"
    return lambda key: m.get(key)


def liveness(d, xk, hist=False, field="last_pkt"):
    """Liveness tests on users[xk].last_pkt known in disjunct d, normalised:
    list of (form, K) with form in
      'expired'      last_pkt + K <  now
      'live'         last_pkt + K >  now
      'not_expired'  last_pkt + K >= now
      'not_live'     last_pkt + K <= now"""
    from iosa import lin
    res = _now_resolver(d)
    lk = "users[%s].%s" % (xk, field)
    out = []
    for f in d:
        if (hist and f.kind != "hist") or (not hist and f.kind != "cmp"):
            continue
        g = f.fact if hist else f
        n = lin.norm_cmp(g.l, g.op, g.r, res)
        if n is None:
            continue
        atoms, op, c = n
        at = dict(atoms)
        if set(at) != {lk, "time(0)"} or at[lk] + at["time(0)"] != 0 or abs(at[lk]) != 1:
            continue
        if at[lk] == 1:
            # last_pkt - now op c   ->   now - last_pkt op' -c
            op = {"<=": ">=", ">=": "<=", "==": "==", "!=": "!="}[op]
            c = -c
        # now - last_pkt op c
        if op == ">=":
            out.append(("expired", c - 1))      # last_pkt + K <  now
            out.append(("not_live", c))         # last_pkt + K <= now
        elif op == "<=":
            out.append(("live", c + 1))         # last_pkt + K >  now
            out.append(("not_expired", c))      # last_pkt + K >= now
    return out


def has_liveness(d, xk, forms, hist=False):
    return [k for f, k in liveness(d, xk, hist) if f in forms and k > 0]
