"""C14  No unsolicited or surplus answers (clause level): a typestate over
the two per-session query holders and the incoming query.

R1 consume: every answer path empties the query it answered (id = 0)
R2 send only from an occupied holder
R3 a holder is overwritten only when empty
R4 the incoming query is answered at most once, or stored, never both
R5 queries with id 0 are dropped before any effect
R6 the duplicate slot (id2/from2) is set only by the pending-duplicate branches,
   answered under id2 != 0 after id/from were swapped in, and never survives a new occupant
R7 exactly two holders
"""
import re
from iosa import ir, guard, tables
from iosa.ir import sk, pp, cval
from iosa.facts import AnalysisBroken
from . import common as C

HOLDERS = ("q", "q_sendrealsoon")
SENDER = "send_chunk_or_dataless"
RAW_EXEMPT = ("handle_raw_login", "handle_raw_data", "handle_raw_ping")


def holder_of(e):
    """('users[x]', holder field) if e denotes &users[x].H / users[x].H, else None."""
    e = sk(e)
    if e.get("k") == "Un" and e["op"] == "&":
        e = sk(e["a"][0])
    if e.get("k") == "Mem" and e["field"] in HOLDERS and (e.get("rec") or "").endswith("tun_user"):
        return pp(sk(e["a"][0])), e["field"]
    return None


def holds(d, key, op, val, hist=False):
    if guard.d_holds(d, op, key, val):
        return True
    if hist:
        for f in d:
            if f.kind == "hist" and f.fact.key[0] == key and f.fact.op == op and f.fact.key[2] == val:
                return True
    return False


def occupied(d, base, h, qparam):
    """Holder known to hold a live query: id != 0, or it is a copy of the
    incoming query whose id is known non-zero."""
    key = "%s.%s.id" % (base, h)
    if guard.d_holds(d, "!=", key, 0):
        return "id != 0"
    hk = "%s.%s" % (base, h)
    for f in d:
        if f.kind == "cmp" and f.op == "==" and f.key[0] == hk and f.key[2] == "*" + qparam:
            if guard.d_holds(d, "!=", qparam + "->id", 0):
                return "copy of the incoming query (id != 0)"
            # the id was tested non-zero on entry; only an answer event can have cleared it since,
            # and by R4 no store or send follows an answer event
            if holds(d, qparam + "->id", "!=", 0, hist=True):
                return "copy of the incoming query (id tested != 0 on entry; R4)"
    return None


def run(P, chk, tier):
    # the data handler correlates `didsend`, `lazy` and the holder ids across several tests: keep those
    # distinctions when the disjunct cap is hit
    def focus(f):
        k = f.key[0]
        return k.endswith(".id") or k.endswith("->id") or k in ("didsend",) or k.endswith(".lazy") or f.key[2] == "*q"
    E = guard.Engine(P, hist_roots={"users", "q"}, focus=focus)
    srv = C.server_units(P)
    chk.decided = ("answers are sent only from a holder known to be occupied (or just filled with the incoming query), "
                   "sending empties it on every path, a holder is overwritten only when empty, the incoming query is "
                   "answered directly at most once and never also stored, id-0 queries are dropped before any effect, "
                   "the duplicate slot is written only by the pending-duplicate branches and cannot survive a new "
                   "occupant, and a session has exactly two holders.")
    chk.not_decided = ("cross-event histories: the state machine is checked per handler; soundness between events rests "
                       "on 'empty <=> id == 0', which these rules enforce as the only representation. Raw-mode handlers "
                       "store an undecoded query structure in the holder (reviewed exception).")
    snd = P.func(SENDER, "iodined.c")
    hnr = P.func("handle_null_request", "iodined.c")
    qparam = hnr.params[3]["ref"]["name"]
    # ------------------------------------------------------------------ R1
    r1 = chk.rule("C14.R1", "answering consumes the query",
                  "send_chunk_or_dataless leaves q->id == 0 at every return; answer_from_dnscache and answer_from_qmem "
                  "leave q->id == 0 whenever they report an answer", "E1 summaries", floor=3)
    sq = snd.params[2]["ref"]["name"]
    for b, i, rexp, ds in E.return_states(snd):
        bad = [d for d in ds if not guard.d_holds(d, "==", sq + "->id", 0)]
        chk.site(r1, snd, ir.loc(b.elems[i]) if b.elems else snd.line, "return of %s" % SENDER, not bad,
                 "%s->id == 0" % sq if not bad else "a path returns with the query still marked unanswered")
    for name in ("answer_from_dnscache", "answer_from_qmem"):
        f = P.func(name, "iodined.c")
        qn = next(p["ref"]["name"] for p in f.params if (p["t"].get("to") or {}).get("rec", "").endswith("query"))
        s = E.summary(f, "!=", 0)
        ok = s is not None and any(g.key == (qn + "->id", "==", 0) for g in s)
        chk.site(r1, f, f.line, "%s returns non-zero" % name, ok, "%s->id == 0 on the answered path" % qn if ok else
                 "the answered path does not empty the query")
        # the answer goes to that query
        wr = [c for b, c in f.calls("write_dns") if pp(sk(c["a"][1])) == qn]
        chk.site(r1, f, f.line, "%s answers its own query" % name, len(wr) == 1, "%d write_dns to %s" % (len(wr), qn))

    # ------------------------------------------------------------------ R2
    r2 = chk.rule("C14.R2", "send only from an occupied holder",
                  "every call send_chunk_or_dataless(.., &users[u].H) is dominated by users[u].H.id != 0, or by a whole-"
                  "structure copy of the incoming query (whose id is non-zero) into H, with nothing in between that can "
                  "empty or replace H", "E1 (facts killed through callee mod-sets)", floor=4)
    nsend = 0
    for f in P.funcs(srv):
        for b, c in f.calls(SENDER):
            ho = holder_of(c["a"][2])
            if ho is None:
                # a local pointer that was pointed at one holder or the other: judge each path by the holder it chose
                a2 = sk(c["a"][2])
                an = E.analysis(f)
                ds = an.before_node(c["n"]) if a2.get("k") == "Ref" else None
                if ds:
                    nm = a2["ref"]["name"]
                    qp = next((p["ref"]["name"] for p in f.params if (p["t"].get("to") or {}).get("rec", "").endswith("query")), "q")
                    bad, unk, why = [], 0, set()
                    for d in ds:
                        tgt = None
                        for g in d:
                            if g.kind == "cmp" and g.op == "==" and g.key[0] == nm:
                                tgt = holder_of(g.r) or tgt
                            elif g.kind == "cmp" and g.op == "==" and g.key[2] == nm:
                                tgt = holder_of(g.l) or tgt
                        if tgt is None:
                            unk += 1
                            continue
                        w = occupied(d, tgt[0], tgt[1], qp)
                        if w:
                            why.add("%s.%s: %s" % (tgt[0], tgt[1], w))
                        else:
                            bad.append((d, tgt))
                    if unk:
                        chk.undecided(r2, f, ir.loc(c), pp(c)[:70], "the query pointer %s is not known to point at a session holder on every path" % nm)
                    else:
                        nsend += 1
                        chk.site(r2, f, ir.loc(c), pp(c)[:70], not bad,
                                 "holder chosen per path, occupied: " + ", ".join(sorted(why)) if not bad else
                                 "on some path %s.%s is not known to hold a query (id != 0) at the time of sending" % bad[0][1])
                    continue
                chk.undecided(r2, f, ir.loc(c), pp(c)[:70], "third argument is not a session holder expression")
                continue
            nsend += 1
            base, h = ho
            an = E.analysis(f)
            ds = an.before_node(c["n"])
            if ds is None:
                continue
            qp = next((p["ref"]["name"] for p in f.params if (p["t"].get("to") or {}).get("rec", "").endswith("query")), "q")
            why = set()
            bad = []
            for d in ds:
                w = occupied(d, base, h, qp)
                if w:
                    why.add(w)
                else:
                    bad.append(d)
            chk.site(r2, f, ir.loc(c), "%s(.., &%s.%s)" % (SENDER, base, h), not bad,
                     "holder occupied: " + ", ".join(sorted(why)) if not bad else
                     "on some path %s.%s is not known to hold a query (id != 0) at the time of sending" % (base, h),
                     witness={"facts": C.fmt_d(bad[0], 25)} if bad else None)
    if nsend < 4:
        raise AnalysisBroken("C14.R2: fewer than four sender call sites")

    # ------------------------------------------------------------------ R3 + R6 (stores)
    r3 = chk.rule("C14.R3", "overwrite only empty",
                  "every store of a query into a holder in the ping and data handlers is a copy of the whole structure "
                  "and is dominated by H.id == 0 (established by a send, an explicit reset or a failed id != 0 test)",
                  "E1", floor=4)
    r6 = chk.rule("C14.R6", "duplicate slot discipline",
                  "id2/fromlen2/from2 of a holder are written only where the incoming query equals the held one "
                  "(pending-duplicate branches); no other field of a holder is written except id = 0 and whole-structure "
                  "copies, so a new occupant always brings id2 == 0 (dns_decode clears it for every datagram); the "
                  "second answer is sent under id2 != 0 after id/fromlen/from were replaced by the duplicate's", "E1 + E6", floor=8)
    stores = []
    for f in P.funcs(srv):
        if f.unit.file != "iodined.c":
            continue
        for b, c in f.calls("memcpy"):
            ho = holder_of(c["a"][0])
            if ho is None:
                continue
            stores.append((f, b, c, ho))
        # a helper that is handed a holder and writes through it stores into the holder as well
        for b, c in f.calls():
            t = P.callee(c, f)
            if t is None or t.name in (SENDER, "memcpy"):
                continue
            for i, a in enumerate(c.get("a", ())):
                ho = holder_of(a)
                if ho is None:
                    continue
                wr = [d for d in P.modset(t) if d[0] == "prel" and d[1] == i]
                # a helper that only fills in the duplicate slot (id2/fromlen2/from2) does not replace the occupant: R6's subject
                flds = {c_[2] for d in wr for c_ in d[2] if c_[0] == "f"}
                if wr and not (flds and flds <= {"id2", "fromlen2", "from2"}):
                    stores.append((f, b, c, ho))
    reach_pd = set()
    for ch in "Pp0123456789abcdefABCDEF":
        blocks, _, _ = tables.reach_under(hnr, {"in[0]": ord(ch)})
        reach_pd |= blocks
    reach_other = set()
    for ch in "VvLlIiZzSsOoYyRrNn":
        blocks, _, _ = tables.reach_under(hnr, {"in[0]": ord(ch)})
        reach_other |= blocks
    n3 = 0
    for f, b, c, (base, h) in stores:
        if c.get("fn") == "memcpy":
            size = cval(sk(c["a"][2]))
            dt = sk(sk(c["a"][0])["a"][0]).get("t") if sk(c["a"][0]).get("k") == "Un" else None
            whole = dt is not None and dt.get("size") == size
        else:
            whole = True        # what the helper writes is judged by R6
        if f.name in RAW_EXEMPT:
            chk.site(r3, f, ir.loc(c), pp(c)[:70], whole, "reviewed exception: raw-mode sessions hold no DNS query (whole-structure copy: %s)" % whole)
            continue
        if f is hnr and b.id in reach_other and b.id not in reach_pd:
            # version handler: store, answer, empty again before returning
            an = E.analysis(f)
            ok = False
            for rb, ri, rexp, ds in E.return_states(f):
                pass
            later = [x for bb, x in f.all_nodes() if x.get("k") == "Bin" and x["op"] == "=" and pp(sk(x["a"][0])) == "%s.%s.id" % (base, h)
                     and cval(sk(x["a"][1])) == 0 and f.dominates(b.id, bb.id)]
            chk.site(r3, f, ir.loc(c), pp(c)[:70], whole and bool(later),
                     "handshake: stored for the reply and emptied again at line %s" % [ir.loc(x) for x in later][:1] if later else
                     "handshake store is not emptied again before the handler returns")
            continue
        n3 += 1
        an = E.analysis(f)
        ds = an.before_node(c["n"]) or []
        key = "%s.%s.id" % (base, h)
        bad = [d for d in ds if not guard.d_holds(d, "==", key, 0)]
        if bad and f is not hnr:
            # a helper that stores into users[p].H for its parameter p: the emptiness is its callers' business
            m_ = re.match(r"^users\[(\w+)\]$", base)
            pi = next((i_ for i_, p_ in enumerate(f.params) if m_ and p_["ref"]["name"] == m_.group(1)), None)
            callers = P.callers_of(f, srv) if pi is not None else []
            if callers:
                allok = True
                for g, cc in callers:
                    if pi >= len(cc.get("a", ())):
                        allok = False
                        continue
                    ak = "users[%s].%s.id" % (pp(sk(cc["a"][pi])), h)
                    dsg = E.analysis(g).before_node(cc["n"]) or []
                    okg = bool(dsg) and all(guard.d_holds(d, "==", ak, 0) for d in dsg)
                    chk.site(r3, g, ir.loc(cc), "%s -> %s" % (pp(cc)[:40], pp(c)[:40]), whole and okg,
                             "%s == 0 at the call; the helper copies the whole structure" % ak if whole and okg else
                             "on some path %s is not known to be empty when %s() stores into it" % (ak, f.name))
                continue
        chk.site(r3, f, ir.loc(c), pp(c)[:70], whole and not bad,
                 "%s == 0 on every path; whole structure copied" % key if whole and not bad else
                 ("partial copy into a holder" if not whole else "on some path %s is not known to be empty: a waiting query would be lost unanswered" % key),
                 witness={"facts": C.fmt_d(bad[0], 25)} if bad else None)
    if n3 < 2:
        raise AnalysisBroken("C14.R3: holder stores of the ping/data handlers not found")
    # field-wise writes into holders: direct writes to users[x].H.field, and writes through a
    # `struct query *` parameter in functions that are handed a holder
    holder_params = {}
    for f in P.funcs(srv):
        for b, c in f.calls():
            t = P.callee(c, f)
            if t is None:
                continue
            for i, a in enumerate(c.get("a", ())):
                if holder_of(a) is not None and i < len(t.params):
                    holder_params.setdefault(id(t), (t, set()))[1].add(t.params[i]["ref"]["name"])
    nw = 0
    for f in P.funcs(srv):
        if f.unit.file != "iodined.c":
            continue
        hp = holder_params.get(id(f), (None, set()))[1]
        an = None
        for node, pth, pt, val, kind in C.writes_in(P, f):
            if pth is None:
                continue
            comps = [c_ for c_ in pth if c_[0] == "f"]
            via_param = None
            if pth[0][1] == "users" and len(comps) >= 2 and comps[0][1].endswith("tun_user") and comps[0][2] in HOLDERS:
                fld = comps[1][2]
                hk = "%s.%s" % (pp_base(pth), comps[0][2])
            elif pth[0][1] in hp and pth[0][3] == "param" and comps and comps[0][1].endswith("query"):
                fld = comps[0][2]
                hk = None
                via_param = pth[0][1]
            else:
                continue
            nw += 1
            what = pp(node)[:60]
            v = sk(val) if val is not None else None
            if via_param and f.name == SENDER:
                # the sender may empty the query and swap in the remembered duplicate's id and address
                allowed = (fld == "id" and v is not None and (cval(v) == 0 or pp(v) == via_param + "->id2")) or \
                          (fld == "fromlen" and v is not None and pp(v) == via_param + "->fromlen2") or \
                          (fld == "from" and kind == "extern:memcpy" and "from2" in pp(node))
                chk.site(r6, f, ir.loc(node), what, bool(allowed), "sender: empties the query or swaps in the duplicate" if allowed else
                         "the sender modifies field %s of the query it answers" % fld)
                continue
            if kind == "extern:memcpy" and len(comps) == (1 if hk else 0) + 0 and False:
                continue
            if fld == "id":
                ok = v is not None and cval(v) == 0
                chk.site(r6, f, ir.loc(node), what, ok, "holder emptied" if ok else "holder id written with something other than 0")
            elif fld in ("id2", "fromlen2", "from2") and hk is None and via_param:
                # the bookkeeping sits in a helper: judge it where the helper is handed a holder
                pi = next((i_ for i_, p_ in enumerate(f.params) if p_["ref"]["name"] == via_param), None)
                if v is not None and cval(v) == 0:
                    chk.site(r6, f, ir.loc(node), what, True, "duplicate slot cleared")
                    continue
                sites_ = [(g, cc) for g, cc in P.callers_of(f, srv) if pi is not None and pi < len(cc.get("a", ())) and holder_of(cc["a"][pi])]
                if not sites_:
                    chk.undecided(r6, f, ir.loc(node), what, "no call hands this helper a session holder")
                    continue
                for g, cc in sites_:
                    hb, hh = holder_of(cc["a"][pi])
                    hk2 = "%s.%s" % (hb, hh)
                    dsg = E.analysis(g).before_node(cc["n"]) or []
                    qn_ = next((p_["ref"]["name"] for p_ in g.params if (p_["t"].get("to") or {}).get("rec", "").endswith("query")), "q")
                    okd = bool(dsg) and all(guard.d_holds(d, "!=", hk2 + ".id", 0) and guard.d_holds(d, "==", qn_ + "->type", hk2 + ".type") for d in dsg)
                    chk.site(r6, g, ir.loc(cc), "%s -> %s" % (pp(cc)[:40], what[:30]), okd,
                             "under holder occupied and same type/name as the incoming query" if okd else
                             "duplicate slot written outside a pending-duplicate test")
            elif fld in ("id2", "fromlen2", "from2") and hk is not None:
                if v is not None and cval(v) == 0:
                    chk.site(r6, f, ir.loc(node), what, True, "duplicate slot cleared")
                    continue
                an = an or E.analysis(f)
                ds = an.before_node(node["n"]) or []
                okd = all(guard.d_holds(d, "!=", hk + ".id", 0) and guard.d_holds(d, "==", "q->type", hk + ".type") for d in ds)
                chk.site(r6, f, ir.loc(node), what, okd,
                         "under holder occupied and same type/name as the incoming query" if okd else
                         "duplicate slot written outside a pending-duplicate test")
            else:
                chk.site(r6, f, ir.loc(node), what, False,
                         "field %s of a held query is written on its own: the holder is no longer a copy of one query, and "
                         "the duplicate slot (id2) of the previous occupant survives" % fld)
    # the sender's second transmission
    an = E.analysis(snd)
    wds = [c for b, c in snd.calls("write_dns")]
    if len(wds) != 2:
        chk.site(r6, snd, snd.line, "transmissions in the sender", False, "%d write_dns calls, expected the answer and its duplicate" % len(wds))
    else:
        wds.sort(key=ir.loc)
        ds = an.before_node(wds[1]["n"]) or []
        ok2 = all(guard.d_holds(d, "!=", sq + "->id2", 0) and guard.d_holds(d, "==", sq + "->id", sq + "->id2")
                  and guard.d_holds(d, "==", sq + "->fromlen", sq + "->fromlen2") for d in ds)
        chk.site(r6, snd, ir.loc(wds[1]), "second transmission", ok2,
                 "under id2 != 0 with id and fromlen replaced by the duplicate's" if ok2 else
                 "the duplicate's answer is not sent with the duplicate's id/address under id2 != 0")
        same = pp(sk(wds[0]["a"][2])) == pp(sk(wds[1]["a"][2])) and pp(sk(wds[0]["a"][3])) == pp(sk(wds[1]["a"][3]))
        chk.site(r6, snd, ir.loc(wds[1]), "both transmissions carry the same payload", same, "")
    dd = P.func("dns_decode", "dns.c")
    first = None
    for bid in dd.rpo():
        for e in dd.blocks[bid].elems:
            x = sk(e)
            if x.get("k") == "Bin" and x["op"] == "=" and pp(sk(x["a"][0])).endswith("->id2") and cval(sk(x["a"][1])) == 0:
                first = (bid, x)
        if first:
            break
    okf = first is not None and all(dd.dominates(first[0], b.id) for b, i, r, ds in E.return_states(dd))
    chk.site(r6, dd, ir.loc(first[1]) if first else dd.line, "dns_decode clears id2 for every datagram", bool(okf), "")

    # ------------------------------------------------------------------ R4
    r4 = chk.rule("C14.R4", "one answer per incoming query",
                  "in handle_null_request no direct answer to the incoming query (write_dns / send_version_response / "
                  "cache helpers reporting an answer) can be followed by another one or by storing that query in a holder",
                  "CFG reachability between answer events", floor=20)
    one_answer(P, chk, r4, hnr, qparam, reach_pd)

    # ------------------------------------------------------------------ R5
    r5 = chk.rule("C14.R5", "id 0 is dropped", "in the ping and data handlers every effect on session state and every "
                  "send is dominated by q->id != 0", "E1", floor=8)
    an = E.analysis(hnr)
    neff = 0
    for b, x in hnr.all_nodes():
        if b.id not in reach_pd or (b.id in reach_other):
            continue
        eff = None
        if x.get("k") == "Call" and x.get("fn") in (SENDER, "process_downstream_ack", "handle_full_packet"):
            eff = pp(x)[:50]
        elif x.get("k") == "Call" and x.get("fn") == "memcpy" and holder_of(x["a"][0]) is not None:
            eff = pp(x)[:50]
        if eff is None:
            continue
        neff += 1
        ds = an.before_node(x["n"]) or []
        bad = [d for d in ds if not (guard.d_holds(d, "!=", qparam + "->id", 0) or holds(d, qparam + "->id", "!=", 0, hist=True))]
        chk.site(r5, hnr, ir.loc(x), eff, not bad, "q->id != 0" if not bad else "reachable with q->id == 0")
    if neff < 8:
        raise AnalysisBroken("C14.R5: effects of the ping/data handlers not found")

    # ------------------------------------------------------------------ R7
    r7 = chk.rule("C14.R7", "exactly two holders", "struct tun_user has exactly two struct query members besides the "
                  "answer-cache array; the select-loop sweep sends only from q_sendrealsoon under id != 0", "E7", floor=1)
    rec = None
    for u in P.units.values():
        for rn, r in u.records.items():
            if rn.endswith("tun_user"):
                rec = r
    if rec is None:
        raise AnalysisBroken("struct tun_user not found")
    qs = [fd["name"] for fd in rec["fields"] if (fd["t"] or {}).get("k") == "record" and (fd["t"].get("rec") or "").endswith("query")]
    chk.site(r7, "user.h", 0, "query holders in struct tun_user", sorted(qs) == sorted(HOLDERS), "members: %s" % qs)


def pp_base(p_):
    """'users[x]' of an access path rooted at the session table."""
    return "users[%s]" % p_[1][1] if len(p_) > 1 and p_[1][0] == "i" else "users"


def one_answer(P, chk, r4, hnr, qparam, reach_pd):
    """Answer events and holder stores of the incoming query; none may reach another."""
    events = []          # (kind, block id, elem index or None for edge, succ index, node)
    for b in hnr.blocks.values():
        for i, e in enumerate(b.elems):
            for x in hnr.own_nodes(e):
                if x.get("k") != "Call":
                    continue
                fn = x.get("fn")
                if fn == "write_dns" and pp(sk(x["a"][1])) == qparam:
                    events.append(("answer", b.id, i, None, x))
                elif fn == "send_version_response" and pp(sk(x["a"][-1])) == qparam:
                    events.append(("answer", b.id, i, None, x))
                elif fn in ("answer_from_dnscache", "answer_from_qmem", "answer_from_qmem_data") and \
                        any(pp(sk(a)) == qparam for a in x["a"]):
                    # answered on the edge where the helper's result is non-zero
                    if b.term and b.term.get("cond") is not None and any(y is x or y.get("n") == x.get("n") for y in ir.walk(b.term["cond"])):
                        events.append(("answer", b.id, None, 0, x))
                    else:
                        events.append(("answer", b.id, i, None, x))
                elif fn == "memcpy" and holder_of(x["a"][0]) is not None and pp(sk(x["a"][1])) == qparam:
                    events.append(("store", b.id, i, None, x))
    if len([e for e in events if e[0] == "answer"]) < 20:
        raise AnalysisBroken("C14.R4: answer sites of handle_null_request not found")

    def after(ev):
        """blocks reachable strictly after the event, and the rest of its own block"""
        kind, bid, idx, si, node = ev
        b = hnr.blocks[bid]
        start = [b.succs[si]] if si is not None else [s for s in b.succs if s is not None]
        seen = set()
        st = [s for s in start if s is not None]
        while st:
            x = st.pop()
            if x in seen:
                continue
            seen.add(x)
            st.extend(s for s in hnr.blocks[x].succs if s is not None)
        return seen
    for ev in events:
        kind, bid, idx, si, node = ev
        reach = after(ev)
        clash = []
        for ev2 in events:
            if ev2 is ev:
                continue
            k2, b2, i2, s2, n2 = ev2
            same_block_later = (b2 == bid and idx is not None and i2 is not None and i2 > idx)
            if b2 in reach or same_block_later:
                # the handshake stores the query, answers it, and empties the holder again
                if kind == "store" and k2 == "answer" and bid not in reach_pd:
                    continue
                clash.append(ev2)
        chk.site(r4, hnr, ir.loc(node), "%s: %s" % (kind, pp(node)[:50]), not clash,
                 "nothing else answers or stores this query afterwards" if not clash else
                 "followed on some path by %s at line %d" % (clash[0][0], ir.loc(clash[0][4])))
