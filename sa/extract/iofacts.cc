// iofacts: libTooling fact extractor for the iodine static checks.
//
// For one translation unit it prints a JSON document with
//   types     interned canonical types (size, signedness, array extent, ...)
//   records   struct layouts
//   globals   file-scope variables with evaluated initialisers
//   functions every function with a body in the main file: params, locals,
//             clang::CFG (blocks, elements as full expression trees with
//             resolved declarations and constant values, terminators, edges)
// Nothing is decided here; the rules live in ../iosa (Python).
//
// Usage: iofacts file.c -- <compiler flags>

#include "clang/AST/ASTConsumer.h"
#include "clang/AST/ASTContext.h"
#include "clang/AST/Attr.h"
#include "clang/AST/RecordLayout.h"
#include "clang/AST/RecursiveASTVisitor.h"
#include "clang/Analysis/CFG.h"
#include "clang/Frontend/CompilerInstance.h"
#include "clang/Frontend/FrontendAction.h"
#include "clang/Lex/Lexer.h"
#include "clang/Tooling/CommonOptionsParser.h"
#include "clang/Tooling/Tooling.h"
#include "llvm/Support/CommandLine.h"
#include "llvm/Support/JSON.h"

#include <map>
#include <string>
#include <vector>

using namespace clang;
namespace json = llvm::json;

namespace {

static std::string hexOf(llvm::StringRef S) {
  static const char *H = "0123456789abcdef";
  std::string R;
  R.reserve(S.size() * 2);
  for (unsigned char C : S) {
    R.push_back(H[C >> 4]);
    R.push_back(H[C & 15]);
  }
  return R;
}

class Extractor {
public:
  ASTContext &Ctx;
  SourceManager &SM;
  json::Array Types;
  std::map<const Type *, int> TypeIx;
  json::Object Records;
  std::map<const Decl *, int> DeclIds;
  std::map<const Stmt *, int> StmtIds; // per function
  int NextDecl = 1;

  explicit Extractor(ASTContext &C) : Ctx(C), SM(C.getSourceManager()) {}

  int declId(const Decl *D) {
    D = D->getCanonicalDecl();
    auto It = DeclIds.find(D);
    if (It != DeclIds.end())
      return It->second;
    int Id = NextDecl++;
    DeclIds[D] = Id;
    return Id;
  }

  int stmtId(const Stmt *S) {
    auto It = StmtIds.find(S);
    if (It != StmtIds.end())
      return It->second;
    int Id = (int)StmtIds.size() + 1;
    StmtIds[S] = Id;
    return Id;
  }

  int typeIx(QualType QT) {
    QT = QT.getCanonicalType();
    bool IsConst = QT.isConstQualified();
    const Type *T = QT.getTypePtr();
    // const-qualified variants are interned separately through a fake key:
    // we keep it simple and drop qualifiers except for a "const" flag on
    // pointees, which the rules do not use.
    (void)IsConst;
    auto It = TypeIx.find(T);
    if (It != TypeIx.end())
      return It->second;
    int Ix = (int)Types.size();
    TypeIx[T] = Ix;
    Types.push_back(json::Object{}); // reserve slot (recursion)
    json::Object O;
    O["s"] = QualType(T, 0).getAsString();
    if (!T->isIncompleteType() && !T->isFunctionType() && !T->isVoidType() &&
        !T->isDependentType())
      O["size"] = (int64_t)Ctx.getTypeSizeInChars(QualType(T, 0)).getQuantity();
    if (T->isBooleanType()) {
      O["k"] = "int";
      O["signed"] = false;
      O["bits"] = 1;
    } else if (T->isEnumeralType()) {
      O["k"] = "int";
      O["enum"] = true;
      O["signed"] = T->isSignedIntegerOrEnumerationType();
      O["bits"] = (int64_t)Ctx.getTypeSize(QualType(T, 0));
    } else if (T->isIntegerType()) {
      O["k"] = "int";
      O["signed"] = T->isSignedIntegerType();
      O["bits"] = (int64_t)Ctx.getTypeSize(QualType(T, 0));
      if (T->isCharType())
        O["char"] = true;
    } else if (T->isPointerType()) {
      O["k"] = "ptr";
      O["to"] = typeIx(T->getPointeeType());
    } else if (const auto *CA = dyn_cast<ConstantArrayType>(T)) {
      O["k"] = "array";
      O["elem"] = typeIx(CA->getElementType());
      O["n"] = (int64_t)CA->getSize().getZExtValue();
    } else if (const auto *AT = dyn_cast<ArrayType>(T)) {
      O["k"] = "array";
      O["elem"] = typeIx(AT->getElementType());
    } else if (const auto *RT = dyn_cast<RecordType>(T)) {
      O["k"] = "record";
      std::string Name = recordName(RT->getDecl());
      O["rec"] = Name;
      addRecord(RT->getDecl(), Name);
    } else if (T->isFunctionType()) {
      O["k"] = "func";
      if (const auto *FT = dyn_cast<FunctionType>(T))
        O["ret"] = typeIx(FT->getReturnType());
    } else if (T->isVoidType()) {
      O["k"] = "void";
    } else if (T->isFloatingType()) {
      O["k"] = "float";
    } else {
      O["k"] = "other";
    }
    Types[Ix] = std::move(O);
    return Ix;
  }

  std::string recordName(const RecordDecl *RD) {
    if (RD->getIdentifier())
      return (RD->isUnion() ? "union " : "struct ") + RD->getName().str();
    if (const TypedefNameDecl *TD = RD->getTypedefNameForAnonDecl())
      return TD->getName().str();
    PresumedLoc PL = SM.getPresumedLoc(SM.getExpansionLoc(RD->getBeginLoc()));
    return std::string(RD->isUnion() ? "union" : "struct") + " <anon@" +
           (PL.isValid() ? std::to_string(PL.getLine()) : "?") + ">";
  }

  void addRecord(const RecordDecl *RD, const std::string &Name) {
    if (Records.find(Name) != Records.end())
      return;
    RD = RD->getDefinition();
    if (!RD || RD->isInvalidDecl()) {
      return;
    }
    Records[Name] = json::Object{}; // recursion guard
    const ASTRecordLayout &L = Ctx.getASTRecordLayout(RD);
    json::Array Fields;
    unsigned I = 0;
    for (const FieldDecl *F : RD->fields()) {
      json::Object FO;
      FO["name"] = F->getName().str();
      FO["t"] = typeIx(F->getType());
      uint64_t Bits = L.getFieldOffset(I);
      FO["bitoff"] = (int64_t)Bits;
      if (F->isBitField())
        FO["bw"] = (int64_t)F->getBitWidthValue(Ctx);
      Fields.push_back(std::move(FO));
      ++I;
    }
    json::Object RO;
    RO["size"] = (int64_t)L.getSize().getQuantity();
    RO["union"] = RD->isUnion();
    RO["fields"] = std::move(Fields);
    Records[Name] = std::move(RO);
  }

  json::Value loc(SourceLocation L) {
    SourceLocation E = SM.getExpansionLoc(L);
    PresumedLoc PL = SM.getPresumedLoc(E);
    json::Array A;
    if (PL.isValid()) {
      A.push_back((int64_t)PL.getLine());
      A.push_back((int64_t)PL.getColumn());
      if (!SM.isInMainFile(E))
        A.push_back(llvm::sys::path::filename(PL.getFilename()).str());
    }
    return std::move(A);
  }

  void putCommon(json::Object &O, const Stmt *S) {
    O["n"] = stmtId(S);
    O["l"] = loc(S->getBeginLoc());
    if (S->getBeginLoc().isMacroID()) {
      // outermost macro whose expansion contains this node's first token
      SourceLocation L = S->getBeginLoc();
      std::string Outer;
      std::string Inner =
          Lexer::getImmediateMacroName(L, SM, Ctx.getLangOpts()).str();
      while (L.isMacroID()) {
        Outer = Lexer::getImmediateMacroName(L, SM, Ctx.getLangOpts()).str();
        L = SM.getImmediateMacroCallerLoc(L);
      }
      O["m"] = Outer;
      if (Inner != Outer)
        O["mi"] = Inner;
    }
    if (const auto *E = dyn_cast<Expr>(S)) {
      O["t"] = typeIx(E->getType());
      if (E->getType()->isIntegralOrEnumerationType() && !E->isValueDependent()) {
        Expr::EvalResult R;
        if (E->EvaluateAsInt(R, Ctx, Expr::SE_NoSideEffects)) {
          llvm::APSInt V = R.Val.getInt();
          if (V.isSigned())
            O["v"] = (int64_t)V.getSExtValue();
          else if (V.getActiveBits() <= 63)
            O["v"] = (int64_t)V.getZExtValue();
          else
            O["v"] = llvm::toString(V, 10); // > int64: as string
        }
      }
    }
  }

  json::Value refOf(const ValueDecl *D) {
    json::Object R;
    R["name"] = D->getName().str();
    R["id"] = declId(D);
    if (isa<ParmVarDecl>(D))
      R["rk"] = "param";
    else if (const auto *VD = dyn_cast<VarDecl>(D)) {
      if (VD->isLocalVarDecl())
        R["rk"] = VD->isStaticLocal() ? "slocal" : "local";
      else {
        R["rk"] = "global";
        if (VD->getStorageClass() == SC_Static)
          R["static"] = true;
      }
    } else if (const auto *FD = dyn_cast<FunctionDecl>(D)) {
      R["rk"] = "func";
      if (FD->getStorageClass() == SC_Static)
        R["static"] = true;
      if (FD->isNoReturn())
        R["noreturn"] = true;
    } else if (isa<EnumConstantDecl>(D))
      R["rk"] = "enum";
    else
      R["rk"] = "other";
    return std::move(R);
  }

  json::Value expr(const Stmt *S) {
    if (!S)
      return nullptr;
    // transparent wrappers
    if (const auto *P = dyn_cast<ParenExpr>(S))
      return expr(P->getSubExpr());
    if (const auto *CE = dyn_cast<ConstantExpr>(S))
      return expr(CE->getSubExpr());
    if (const auto *IC = dyn_cast<ImplicitCastExpr>(S)) {
      switch (IC->getCastKind()) {
      case CK_LValueToRValue:
      case CK_NoOp:
      case CK_FunctionToPointerDecay:
      case CK_ArrayToPointerDecay:
      case CK_BuiltinFnToFnPtr:
        return expr(IC->getSubExpr());
      default:
        break;
      }
    }
    json::Object O;
    putCommon(O, S);
    json::Array A;
    if (const auto *IL = dyn_cast<IntegerLiteral>(S)) {
      (void)IL;
      O["k"] = "Int";
    } else if (const auto *CL = dyn_cast<CharacterLiteral>(S)) {
      (void)CL;
      O["k"] = "Int";
      O["chr"] = true;
    } else if (const auto *SL = dyn_cast<StringLiteral>(S)) {
      O["k"] = "Str";
      O["hex"] = hexOf(SL->getBytes());
      O["len"] = (int64_t)SL->getByteLength();
    } else if (const auto *DR = dyn_cast<DeclRefExpr>(S)) {
      O["k"] = "Ref";
      O["ref"] = refOf(DR->getDecl());
    } else if (const auto *ME = dyn_cast<MemberExpr>(S)) {
      O["k"] = "Mem";
      O["field"] = ME->getMemberDecl()->getName().str();
      O["arrow"] = ME->isArrow();
      if (const auto *FD = dyn_cast<FieldDecl>(ME->getMemberDecl())) {
        O["rec"] = recordName(FD->getParent());
        if (FD->isBitField())
          O["bw"] = (int64_t)FD->getBitWidthValue(Ctx);
      }
      A.push_back(expr(ME->getBase()));
    } else if (const auto *AS = dyn_cast<ArraySubscriptExpr>(S)) {
      O["k"] = "Sub";
      A.push_back(expr(AS->getBase()));
      A.push_back(expr(AS->getIdx()));
    } else if (const auto *UO = dyn_cast<UnaryOperator>(S)) {
      O["k"] = "Un";
      std::string Op = UnaryOperator::getOpcodeStr(UO->getOpcode()).str();
      if (UO->isPostfix())
        Op = "post" + Op;
      else if (UO->isIncrementDecrementOp())
        Op = "pre" + Op;
      O["op"] = Op;
      A.push_back(expr(UO->getSubExpr()));
    } else if (const auto *BO = dyn_cast<BinaryOperator>(S)) {
      O["k"] = "Bin";
      O["op"] = BO->getOpcodeStr().str();
      if (const auto *CAO = dyn_cast<CompoundAssignOperator>(BO)) {
        O["ct"] = typeIx(CAO->getComputationResultType());
      }
      A.push_back(expr(BO->getLHS()));
      A.push_back(expr(BO->getRHS()));
    } else if (const auto *CO = dyn_cast<ConditionalOperator>(S)) {
      O["k"] = "Cond";
      A.push_back(expr(CO->getCond()));
      A.push_back(expr(CO->getTrueExpr()));
      A.push_back(expr(CO->getFalseExpr()));
    } else if (const auto *Call = dyn_cast<CallExpr>(S)) {
      O["k"] = "Call";
      if (const FunctionDecl *FD = Call->getDirectCallee()) {
        O["fn"] = FD->getName().str();
        O["fid"] = declId(FD);
        if (FD->getStorageClass() == SC_Static)
          O["static"] = true;
        if (FD->isNoReturn())
          O["noreturn"] = true;
        if (FD->getBuiltinID())
          O["builtin"] = true;
      } else {
        O["callee"] = expr(Call->getCallee());
      }
      for (const Expr *Arg : Call->arguments())
        A.push_back(expr(Arg));
    } else if (const auto *CS = dyn_cast<CStyleCastExpr>(S)) {
      O["k"] = "Cast";
      O["ck"] = CS->getCastKindName();
      A.push_back(expr(CS->getSubExpr()));
    } else if (const auto *IC = dyn_cast<ImplicitCastExpr>(S)) {
      O["k"] = "ICast";
      O["ck"] = IC->getCastKindName();
      A.push_back(expr(IC->getSubExpr()));
    } else if (const auto *UE = dyn_cast<UnaryExprOrTypeTraitExpr>(S)) {
      O["k"] = "Sizeof";
      O["trait"] = (int64_t)UE->getKind();
      O["of"] = typeIx(UE->getTypeOfArgument());
      if (!UE->isArgumentType())
        A.push_back(expr(UE->getArgumentExpr()));
    } else if (const auto *IL2 = dyn_cast<InitListExpr>(S)) {
      O["k"] = "InitList";
      const InitListExpr *Sem = IL2->isSemanticForm() ? IL2 : IL2->getSemanticForm();
      if (!Sem)
        Sem = IL2;
      for (const Expr *I : Sem->inits())
        A.push_back(expr(I));
      if (Sem->hasArrayFiller())
        O["filler"] = expr(Sem->getArrayFiller());
    } else if (isa<ImplicitValueInitExpr>(S)) {
      O["k"] = "ZeroInit";
    } else if (const auto *CLE = dyn_cast<CompoundLiteralExpr>(S)) {
      O["k"] = "CompoundLit";
      A.push_back(expr(CLE->getInitializer()));
    } else if (const auto *DS = dyn_cast<DeclStmt>(S)) {
      O["k"] = "Decl";
      json::Array Ds;
      for (const Decl *D : DS->decls()) {
        if (const auto *VD = dyn_cast<VarDecl>(D)) {
          json::Object DO;
          DO["ref"] = refOf(VD);
          DO["t"] = typeIx(VD->getType());
          if (VD->hasInit())
            DO["init"] = expr(VD->getInit());
          Ds.push_back(std::move(DO));
        }
      }
      O["decls"] = std::move(Ds);
    } else if (const auto *RS = dyn_cast<ReturnStmt>(S)) {
      O["k"] = "Return";
      if (RS->getRetValue())
        A.push_back(expr(RS->getRetValue()));
    } else if (isa<StmtExpr>(S)) {
      O["k"] = "StmtExpr";
    } else if (const auto *OE = dyn_cast<OffsetOfExpr>(S)) {
      (void)OE;
      O["k"] = "Offsetof";
    } else {
      O["k"] = "Other";
      O["cls"] = S->getStmtClassName();
      for (const Stmt *C : S->children())
        if (C)
          A.push_back(expr(C));
    }
    if (!A.empty())
      O["a"] = std::move(A);
    return std::move(O);
  }

  json::Value labelOf(const Stmt *L) {
    json::Object O;
    if (const auto *CS = dyn_cast<CaseStmt>(L)) {
      O["k"] = "case";
      Expr::EvalResult R;
      if (CS->getLHS()->EvaluateAsInt(R, Ctx))
        O["v"] = (int64_t)R.Val.getInt().getExtValue();
      if (CS->getRHS()) {
        Expr::EvalResult R2;
        if (CS->getRHS()->EvaluateAsInt(R2, Ctx))
          O["v2"] = (int64_t)R2.Val.getInt().getExtValue();
      }
    } else if (isa<DefaultStmt>(L)) {
      O["k"] = "default";
    } else if (const auto *LS = dyn_cast<LabelStmt>(L)) {
      O["k"] = "label";
      O["name"] = LS->getName();
    } else {
      O["k"] = "other";
    }
    O["l"] = loc(L->getBeginLoc());
    return std::move(O);
  }

  json::Value function(const FunctionDecl *FD) {
    StmtIds.clear();
    json::Object F;
    F["name"] = FD->getName().str();
    F["id"] = declId(FD);
    F["static"] = FD->getStorageClass() == SC_Static;
    F["noreturn"] = FD->isNoReturn();
    F["ret"] = typeIx(FD->getReturnType());
    F["l"] = loc(FD->getBeginLoc());
    F["lend"] = loc(FD->getEndLoc());
    json::Array Ps;
    for (const ParmVarDecl *P : FD->parameters()) {
      json::Object PO;
      PO["ref"] = refOf(P);
      PO["t"] = typeIx(P->getType());
      Ps.push_back(std::move(PO));
    }
    F["params"] = std::move(Ps);

    // locals
    struct LV : RecursiveASTVisitor<LV> {
      std::vector<const VarDecl *> Vars;
      bool VisitVarDecl(VarDecl *VD) {
        if (!isa<ParmVarDecl>(VD))
          Vars.push_back(VD);
        return true;
      }
    } Lv;
    Lv.TraverseStmt(FD->getBody());
    json::Array Ls;
    for (const VarDecl *V : Lv.Vars) {
      json::Object LO;
      LO["ref"] = refOf(V);
      LO["t"] = typeIx(V->getType());
      LO["l"] = loc(V->getLocation());
      Ls.push_back(std::move(LO));
    }
    F["locals"] = std::move(Ls);

    CFG::BuildOptions BO;
    BO.PruneTriviallyFalseEdges = true;
    std::unique_ptr<CFG> G = CFG::buildCFG(FD, FD->getBody(), &Ctx, BO);
    if (!G) {
      F["cfg"] = nullptr;
      return std::move(F);
    }
    json::Object C;
    C["entry"] = (int64_t)G->getEntry().getBlockID();
    C["exit"] = (int64_t)G->getExit().getBlockID();
    json::Array Blocks;
    for (const CFGBlock *B : *G) {
      json::Object BJ;
      BJ["id"] = (int64_t)B->getBlockID();
      json::Array Elems;
      for (const CFGElement &E : *B) {
        if (auto CS = E.getAs<CFGStmt>())
          Elems.push_back(expr(CS->getStmt()));
      }
      BJ["elems"] = std::move(Elems);
      if (B->hasNoReturnElement())
        BJ["noreturn"] = true;
      if (const Stmt *L = B->getLabel())
        BJ["label"] = labelOf(L);
      if (const Stmt *T = B->getTerminatorStmt()) {
        json::Object TJ;
        std::string K = T->getStmtClassName();
        if (const auto *TB = dyn_cast<BinaryOperator>(T))
          K = TB->getOpcodeStr().str();
        TJ["kind"] = K;
        TJ["l"] = loc(T->getBeginLoc());
        const Expr *Cond = B->getLastCondition();
        if (!Cond && isa<SwitchStmt>(T))
          Cond = cast<SwitchStmt>(T)->getCond();
        if (!Cond)
          if (const Stmt *TC = B->getTerminatorCondition())
            Cond = dyn_cast<Expr>(TC);
        if (Cond && B->succ_size() >= 2)
          TJ["cond"] = expr(Cond);
        if (const auto *GS = dyn_cast<GotoStmt>(T))
          TJ["goto"] = GS->getLabel()->getName().str();
        BJ["term"] = std::move(TJ);
      }
      json::Array Succs;
      for (auto I = B->succ_begin(); I != B->succ_end(); ++I) {
        json::Object SJ;
        if (const CFGBlock *R = I->getReachableBlock())
          SJ["to"] = (int64_t)R->getBlockID();
        else if (const CFGBlock *U = I->getPossiblyUnreachableBlock()) {
          SJ["to"] = nullptr;
          SJ["uto"] = (int64_t)U->getBlockID();
        } else
          SJ["to"] = nullptr;
        Succs.push_back(std::move(SJ));
      }
      BJ["succs"] = std::move(Succs);
      Blocks.push_back(std::move(BJ));
    }
    C["blocks"] = std::move(Blocks);
    F["cfg"] = std::move(C);
    return std::move(F);
  }
};

class Consumer : public ASTConsumer {
public:
  void HandleTranslationUnit(ASTContext &Ctx) override {
    if (Ctx.getDiagnostics().hasErrorOccurred()) {
      llvm::errs() << "iofacts: parse errors, no facts emitted\n";
      return;
    }
    Extractor X(Ctx);
    SourceManager &SM = Ctx.getSourceManager();
    json::Array Funcs, Globals, Protos;
    for (const Decl *D : Ctx.getTranslationUnitDecl()->decls()) {
      SourceLocation L = SM.getExpansionLoc(D->getBeginLoc());
      bool Main = SM.isInMainFile(L);
      if (const auto *FD = dyn_cast<FunctionDecl>(D)) {
        if (FD->doesThisDeclarationHaveABody()) {
          // bodies in the project's own headers count too
          if (Main || !SM.isInSystemHeader(L))
            Funcs.push_back(X.function(FD));
        } else if (Main || !SM.isInSystemHeader(L)) {
          json::Object P;
          P["name"] = FD->getName().str();
          P["id"] = X.declId(FD);
          P["noreturn"] = FD->isNoReturn();
          P["l"] = X.loc(FD->getBeginLoc());
          Protos.push_back(std::move(P));
        }
      } else if (const auto *VD = dyn_cast<VarDecl>(D)) {
        if (!Main && SM.isInSystemHeader(L))
          continue;
        X.StmtIds.clear();
        json::Object G;
        G["ref"] = X.refOf(VD);
        G["t"] = X.typeIx(VD->getType());
        G["l"] = X.loc(VD->getLocation());
        G["extern"] = VD->hasExternalStorage();
        G["def"] = VD->isThisDeclarationADefinition() != VarDecl::DeclarationOnly;
        if (VD->hasInit())
          G["init"] = X.expr(VD->getInit());
        Globals.push_back(std::move(G));
      } else if (const auto *RD = dyn_cast<RecordDecl>(D)) {
        if ((Main || !SM.isInSystemHeader(L)) && RD->isCompleteDefinition())
          X.typeIx(Ctx.getRecordType(RD));
      }
    }
    json::Object Root;
    FileID MF = SM.getMainFileID();
    if (const FileEntry *FE = SM.getFileEntryForID(MF))
      Root["file"] = llvm::sys::path::filename(FE->getName()).str();
    Root["types"] = std::move(X.Types);
    Root["records"] = std::move(X.Records);
    Root["globals"] = std::move(Globals);
    Root["protos"] = std::move(Protos);
    Root["functions"] = std::move(Funcs);
    llvm::outs() << json::Value(std::move(Root)) << "\n";
  }
};

class Action : public ASTFrontendAction {
public:
  std::unique_ptr<ASTConsumer> CreateASTConsumer(CompilerInstance &,
                                                 llvm::StringRef) override {
    return std::make_unique<Consumer>();
  }
};

} // namespace

static llvm::cl::OptionCategory Cat("iofacts");

int main(int argc, const char **argv) {
  auto Opts = tooling::CommonOptionsParser::create(argc, argv, Cat);
  if (!Opts) {
    llvm::errs() << llvm::toString(Opts.takeError()) << "\n";
    return 2;
  }
  tooling::ClangTool Tool(Opts->getCompilations(), Opts->getSourcePathList());
  return Tool.run(tooling::newFrontendActionFactory<Action>().get());
}
