#!/bin/sh
# usage: run_f14.sh [tree]   (default /repo) -- exit non-zero if the defect reproduces (ASan report)
T=${1:-/repo}
D=$(mktemp -d); trap 'rm -rf "$D"' EXIT
S=$T/src
{ echo '/* generated */'; sed -e 's/\([Bb][Aa][Ss][Ee]64\)/\1u/g ; s/0123456789+/0123456789_/' < $S/base64.c; } > $D/base64u.c
clang -std=c99 -w -g -fsanitize=address,undefined -fno-sanitize-recover=all -DLINUX -D_GNU_SOURCE -DGITREVISION=\"x\" -I$S -o $D/f14 "$(dirname "$0")/f14_qmem_cmc.c" \
  $S/tun.c $S/dns.c $S/read.c $S/encoding.c $S/login.c $S/base32.c $S/base64.c $D/base64u.c $S/base128.c $S/md5.c $S/common.c $S/util.c $S/user.c $S/fw_query.c -lz || exit 9
$D/f14 > $D/out 2>&1; rc=$?; head -12 $D/out; exit $rc
