#!/bin/sh
# usage: run_f2.sh [tree]   (default /repo) -- exit 1 if the defect reproduces
T=${1:-/repo}
D=$(mktemp -d); trap 'rm -rf "$D"' EXIT
S=$T/src
{ echo '/* generated */'; sed -e 's/\([Bb][Aa][Ss][Ee]64\)/\1u/g ; s/0123456789+/0123456789_/' < $S/base64.c; } > $D/base64u.c
gcc -std=c99 -w -DLINUX -D_GNU_SOURCE -DGITREVISION=\"x\" -I$S -o $D/f2 "$(dirname "$0")/f2_txt_u.c" \
  $S/tun.c $S/dns.c $S/read.c $S/encoding.c $S/login.c $S/base32.c $S/base64.c $D/base64u.c $S/base128.c $S/md5.c $S/common.c $S/util.c -lz || exit 9
$D/f2
