#!/bin/sh
# F13 replay: a relay that lets only PRIVATE-type queries through.
# usage: run_f13.sh [tree]  -- exit 1 if autodetection fails although -T PRIVATE works
tree=${1:-/repo}; here=/verif/seeded/C11-A; src=$tree/src
tmp=$(mktemp -d); trap 'rm -rf "$tmp"' EXIT
C="cc -std=c99 -g -O0 -w -DLINUX -D_GNU_SOURCE -DGITREVISION=\"x\""
{ echo '/* generated */'; sed -e 's/\([Bb][Aa][Ss][Ee]64\)/\1u/g ; s/0123456789+/0123456789_/' < "$src/base64.c"; } > "$tmp/base64u.c"
for f in common dns read encoding login base32 base64 base128 md5 user fw_query; do $C -I"$src" -c "$src/$f.c" -o "$tmp/$f.o" || exit 9; done
$C -I"$src" -c "$tmp/base64u.c" -o "$tmp/base64u.o" || exit 9
for f in h_client h_server h_net; do $C -I"$src" -I"$here" -c "$here/$f.c" -o "$tmp/$f.o" || exit 9; done
$C "$tmp"/*.o -o "$tmp/harness" -lz || exit 9
"$tmp/harness" T=PRIVATE types=PRIVATE >"$tmp/forced.out" 2>&1; f=$?
"$tmp/harness" types=PRIVATE >"$tmp/auto.out" 2>&1; a=$?
echo "forced -T PRIVATE through a PRIVATE-only relay: exit $f ($(tail -n 1 "$tmp/forced.out"))"
echo "autodetected type through the same relay:      exit $a ($(grep -a -m1 -i 'suitable\|RESULT' "$tmp/auto.out"))"
if [ $f -eq 0 ] && [ $a -ne 0 ]; then echo "F13 REPRODUCED: PRIVATE works when forced but can never be autodetected"; exit 1; fi
[ $f -eq 0 ] && [ $a -eq 0 ] && { echo "ok: PRIVATE is autodetected"; exit 0; }
exit 2
