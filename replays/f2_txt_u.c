/* F2 replay: a TXT answer in downstream codec U (Base64u) is decoded by the
 * client with the Base64 table, so every 6-bit group of value 63 ('_' on the
 * wire) comes out as 0.  Drives the real static dns_namedec() of client.c. */
#include <stdio.h>
#include <string.h>
#define main iodine_client_main_unused
#include "client.c"
#undef main

int main(void)
{
	unsigned char payload[3] = { 0xff, 0xff, 0xff };
	char wire[16];
	char out[16];
	size_t cap = sizeof(wire) - 2;
	int n;

	wire[0] = 'u';                               /* what write_dns() emits for downenc 'U' */
	base64u_ops.encode(wire + 1, &cap, payload, sizeof(payload));
	memset(out, 0, sizeof(out));
	n = dns_namedec(out, sizeof(out), wire, strlen(wire));
	printf("wire \"%s\" -> %d bytes: %02x %02x %02x\n", wire, n,
	       (unsigned char) out[0], (unsigned char) out[1], (unsigned char) out[2]);
	if (n != 3 || memcmp(out, payload, 3) != 0) {
		printf("F2 REPRODUCED: client decoded different bytes than the server encoded\n");
		return 1;
	}
	printf("ok: payload recovered exactly\n");
	return 0;
}
