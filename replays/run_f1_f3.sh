#!/bin/sh
# usage: run_f1_f3.sh <tree>; exit 0 = no sanitizer report
T=${1:-/repo}; D=$(mktemp -d); trap 'rm -rf $D' EXIT
make -s -C $T/src base64u.c >/dev/null 2>&1
SRC="$T/src/dns.c $T/src/read.c $T/src/encoding.c $T/src/base32.c $T/src/base64.c $T/src/base64u.c $T/src/base128.c $T/src/common.c"
clang -w -g -fsanitize=address,undefined -fno-sanitize-recover=all -DLINUX -D_GNU_SOURCE -I$T/src $(dirname $0)/f1_f3.c $SRC -o $D/t || exit 9
rc=0
$D/t f1 >$D/o1 2>$D/e1 || { echo "F1: $(grep -m1 -E 'runtime error|ERROR: AddressSanitizer' $D/e1)"; rc=1; }
cat $D/o1
$D/t f3 >$D/o3 2>$D/e3 || { echo "F3: $(grep -m1 -E 'runtime error|ERROR: AddressSanitizer' $D/e3)"; rc=1; }
cat $D/o3
rm -f $T/src/base64u.c
exit $rc
