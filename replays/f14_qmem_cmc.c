/* F14 replay: save_to_qmem_pingordata() decodes the first label of a ping into
 * char cmc[8] with the capacity stated as 8; the Base32 decoder stores its
 * terminator at index `capacity`, so a ping whose first label carries 13 or
 * more Base32 characters writes cmc[8], one byte past the array.  Drives the
 * real static function of iodined.c under AddressSanitizer. */
#include <stdio.h>
#include <string.h>
#define main iodined_main_unused
#include "iodined.c"
#undef main

int main(void)
{
	static struct query q;
	users = calloc(1, sizeof(struct tun_user));
	created_users = 1;
	memset(&q, 0, sizeof(q));
	/* 'p' + 16 base32 characters (10 decoded bytes: more than the 8 the buffer holds) */
	strcpy(q.name, "paaaaaaaaaaaaaaaa.t.example.org");
	q.type = T_NULL;
	q.id = 7;
	save_to_qmem_pingordata(0, &q);
	printf("ok: ping fingerprint stored without touching memory outside cmc[]\n");
	return 0;
}
