/* Replay of findings F6 (C12.R2) and F7 (C12.R1): how a datagram is decoded
 * depended on bytes beyond its end (residue of earlier datagrams).
 * Build: cc -DLINUX -D_GNU_SOURCE -I<src> f6_f7_stale.c <src>/dns.c <src>/read.c <src>/encoding.c <src>/base32.c ... 
 * (see run_f6_f7.sh).  Exit 0 = interpretation independent of residue. */
#include <stdio.h>
#include <string.h>
#include <stdlib.h>
#include <arpa/inet.h>
#include "common.h"
#include "dns.h"
#include "read.h"

static char pkt[64*1024];

static int decode_query(const unsigned char *dg, int len, int fill, char *name_out)
{
	struct query q;
	memset(pkt, fill, sizeof(pkt));
	/* residue that looks like labels */
	memcpy(pkt + 18, fill == 'A' ? "\005stale\003old\000" : "\005OTHER\003xyz\000", 11);
	memcpy(pkt, dg, len);
	memset(&q, 0, sizeof(q));
	int r = dns_decode(NULL, 0, &q, QR_QUERY, pkt, len);
	strcpy(name_out, r > 0 ? q.name : "<rejected>");
	return r;
}

static int decode_answer(const unsigned char *dg, int len, int fill, char *out, int outlen)
{
	struct query q;
	memset(pkt, fill, sizeof(pkt));
	memcpy(pkt, dg, len);
	memset(&q, 0, sizeof(q));
	memset(out, 0, outlen);
	return dns_decode(out, outlen, &q, QR_ANSWER, pkt, len);
}

int main(void)
{
	int bad = 0;
	/* F6: 18-byte query: header, name = pointer to offset 18 (== packetlen), type, class */
	unsigned char q6[18] = {0x12,0x34, 0x01,0x00, 0,1, 0,0, 0,0, 0,0,  0xc0,18,  0,10, 0,1};
	char n1[300], n2[300];
	decode_query(q6, sizeof(q6), 'A', n1);
	decode_query(q6, sizeof(q6), 'B', n2);
	printf("F6: name over residue A: '%s'  over residue B: '%s'\n", n1, n2);
	if (strcmp(n1, n2)) bad = 1;
	/* F7: NULL answer whose RDLENGTH (40) exceeds the 4 bytes present */
	unsigned char a7[] = {0x12,0x34, 0x84,0x00, 0,1, 0,1, 0,0, 0,0,
		1,'a',0, 0,10, 0,1,            /* question a. NULL IN */
		0xc0,12, 0,10, 0,1, 0,0,0,0, 0,40,   /* answer hdr, rdlength 40 */
		'D','A','T','A' };
	char o1[100], o2[100];
	int r1 = decode_answer(a7, sizeof(a7), 'x', o1, sizeof(o1));
	int r2 = decode_answer(a7, sizeof(a7), 'y', o2, sizeof(o2));
	printf("F7: returned %d / %d bytes; payload equal: %s\n", r1, r2, (r1 == r2 && !memcmp(o1, o2, 100)) ? "yes" : "NO");
	if (r1 != r2 || memcmp(o1, o2, 100)) bad = 1;
	return bad;
}
