#!/bin/sh
# usage: run_f6_f7.sh <tree>   (exit 0 = no dependence on stale bytes)
T=${1:-/repo}; D=$(mktemp -d); trap 'rm -rf $D' EXIT
make -s -C $T/src base64u.c >/dev/null 2>&1
cc -w -DLINUX -D_GNU_SOURCE -I$T/src $(dirname $0)/f6_f7_stale.c $T/src/dns.c $T/src/read.c $T/src/encoding.c $T/src/base32.c $T/src/base64.c $T/src/base128.c $T/src/common.c -o $D/t || exit 9
$D/t
