#!/bin/sh
# usage: run_f12.sh <tree>; exit 0 = replies are interpreted from their own bytes only
T=${1:-/repo}; D=$(mktemp -d); trap 'rm -rf $D' EXIT
make -s -C $T/src base64u.c >/dev/null 2>&1
SRC="$T/src/dns.c $T/src/read.c $T/src/encoding.c $T/src/base32.c $T/src/base64.c $T/src/base64u.c $T/src/base128.c $T/src/common.c $T/src/login.c $T/src/md5.c $T/src/util.c"
clang -w -g -fsanitize=address -DLINUX -D_GNU_SOURCE -I$T/src $(dirname $0)/f12_client_stale.c $SRC -lz -o $D/t || exit 9
rc=0
$D/t 2>$D/err1 >$D/out1; cat $D/out1
if grep -q "BADIP: Server rejected" $D/err1; then echo "F12: 2-byte reply 'BA' was interpreted as BADIP (stale bytes of the previous reply)"; rc=1; else echo "F12: 2-byte reply not mistaken for BADIP"; fi
$D/t f4 >$D/out2 2>$D/err2 || { echo "F4: AddressSanitizer: $(grep -m1 'ERROR: AddressSanitizer' $D/err2)"; rc=1; }
cat $D/out2
rm -f $T/src/base64u.c
exit $rc
