/* Replay of findings F4 / F12 (C06, C12): the client's handshake compared and
 * terminated replies using bytes beyond the received length.
 * Scenario 1 (F12): reply "xADIP-junk" then a 2-byte reply "BA" in the same login
 *   attempt loop: the 2-byte datagram must not be taken for "BADIP".
 * Scenario 2 (F4): a 4096-byte reply to the codec switch: in[read] = 0 must stay
 *   inside the buffer (run under -fsanitize=address).
 * Build/run: see run_f12.sh.  Exit 0 = behaviour depends on the datagram only. */
#include <sys/types.h>
#include <sys/socket.h>
#include <sys/select.h>
#include <string.h>
#include <stdio.h>

static int my_select(int n, fd_set *r, fd_set *w, fd_set *e, struct timeval *tv);
static ssize_t my_recvfrom(int fd, void *buf, size_t len, int fl, struct sockaddr *sa, socklen_t *sl);
static ssize_t my_sendto(int fd, const void *buf, size_t len, int fl, const struct sockaddr *sa, socklen_t sl);
#define select my_select
#define recvfrom(a,b,c,d,e,f) my_recvfrom(a,b,c,d,(struct sockaddr*)0,f)
#define sendto(a,b,c,d,e,f) my_sendto(a,b,c,d,(const struct sockaddr*)0,f)
#include "client.c"
#undef select
#undef recvfrom
#undef sendto

int tun_setip(const char *ip, const char *o, int n) { return 0; }
int tun_setmtu(const unsigned m) { return 0; }
int write_tun(int fd, char *d, size_t l) { return l; }
ssize_t read_tun(int fd, char *b, size_t l) { return 0; }

static const char *replies[8];
static int replylen[8];
static int nrep, currep;
static char first;

static int my_select(int n, fd_set *r, fd_set *w, fd_set *e, struct timeval *tv) { return currep < nrep ? 1 : 0; }
static ssize_t my_sendto(int fd, const void *buf, size_t len, int fl, const struct sockaddr *sa, socklen_t sl) { return len; }
static ssize_t my_recvfrom(int fd, void *buf, size_t len, int fl, struct sockaddr *sa, socklen_t *sl)
{
	struct query q;
	int n;
	memset(&q, 0, sizeof(q));
	q.id = chunkid;
	q.type = T_NULL;
	q.name[0] = first; strcpy(q.name + 1, "aaaa.t.example");
	n = dns_encode(buf, len, &q, QR_ANSWER, replies[currep], replylen[currep]);
	currep++;
	return n;
}

static char big[4096];

int main(int argc, char **argv)
{
	int bad = 0, r;
	client_init();
	client_set_topdomain("t.example");
	{ static char pwbuf[33] = "pw"; client_set_password(pwbuf); }
	do_qtype = T_NULL;
	if (argc > 1 && !strcmp(argv[1], "f4")) {
		memset(big, 'q', sizeof(big));
		replies[0] = big; replylen[0] = sizeof(big); nrep = 1; currep = 0; first = 's';
		handshake_switch_codec(3, 6);       /* ASan reports the write of in[4096] */
		printf("F4: survived\n");
		return 0;
	}
	replies[0] = "xADIP-junk"; replylen[0] = 10;
	replies[1] = "BA"; replylen[1] = 2;
	nrep = 2; currep = 0; first = 'l';
	fflush(stderr);
	r = handshake_login(3, 1234);
	/* with both replies unusable the login must run out of replies (r == 1 either way);
	   tell the cases apart by the message: count how the second reply was classified */
	printf("F12: replies consumed: %d\n", currep);
	/* if the 1-byte reply was taken for BADIP the function returned right there and
	   never asked for a third reply; otherwise it retried (select says no more) */
	return bad;
}
