/* Replay of findings F1 (C05/C06 M1) and F3 (C06 M2).
 * F1: Base32/Base64 decoders and b32_8to5() index their 256-entry reverse tables with a
 *     plain (signed) char: bytes >= 0x80 index before the table.
 * F3: dns_decode() MX/SRV reassembly computes MIN(strlen(name), buflen-offset-2) in size_t:
 *     when offset == buflen-1 the subtraction wraps and the copy overruns the caller's buffer.
 * Build with -fsanitize=address,undefined; run "f1" or "f3".  Exit 0 = clean. */
#include <stdio.h>
#include <string.h>
#include <stdlib.h>
#include "common.h"
#include "dns.h"
#include "encoding.h"

static int mkname(unsigned char *p, int len)   /* one name of `len` chars as labels of <=63 */
{
	int n = 0, i;
	while (len > 0) {
		int l = len > 63 ? 63 : len;
		/* dots count as chars in the decoded string: label + '.' */
		p[n++] = l;
		for (i = 0; i < l; i++) p[n++] = 'a';
		len -= l + 1;
	}
	p[n++] = 0;
	return n;
}

int main(int argc, char **argv)
{
	if (argc > 1 && !strcmp(argv[1], "f1")) {
		char out[64]; size_t outlen = sizeof(out);
		char in[] = { 'a', 'b', (char)0x80, (char)0xff, 'c', 'd', 'e', 'f', 0 };
		base32_ops.decode(out, &outlen, in, 8);
		outlen = sizeof(out);
		base64_ops.decode(out, &outlen, in, 8);
		printf("b32_8to5(0x80 as char) = %d\n", b32_8to5((char)0x80));
		return 0;
	}
	/* f3: MX answer: 16 names of 240 chars, one of 238, then one of 250, into a 4096-byte buffer */
	static unsigned char pkt[64*1024];
	static char buf[4096];
	struct query q;
	int n = 0, i, cnt = 18;
	memset(&q, 0, sizeof(q));
	unsigned char hdr[12] = {0x12,0x34,0x84,0x00,0,1,0,(unsigned char)cnt,0,0,0,0};
	memcpy(pkt, hdr, 12); n = 12;
	pkt[n++] = 1; pkt[n++] = 'm'; pkt[n++] = 0; pkt[n++] = 0; pkt[n++] = 15; pkt[n++] = 0; pkt[n++] = 1; /* question m. MX IN */
	for (i = 0; i < cnt; i++) {
		int len = i < 16 ? 240 : (i == 16 ? 238 : 250);
		int start, rdl;
		pkt[n++] = 0xc0; pkt[n++] = 12;           /* name ptr */
		pkt[n++] = 0; pkt[n++] = 15; pkt[n++] = 0; pkt[n++] = 1; /* MX IN */
		pkt[n++] = 0; pkt[n++] = 0; pkt[n++] = 0; pkt[n++] = 0;  /* ttl */
		start = n; n += 2;
		pkt[n++] = ((i + 1) * 10) >> 8; pkt[n++] = ((i + 1) * 10) & 0xff;
		n += mkname(pkt + n, len);
		rdl = n - start - 2;
		pkt[start] = rdl >> 8; pkt[start + 1] = rdl & 0xff;
	}
	i = dns_decode(buf, sizeof(buf), &q, QR_ANSWER, (char *) pkt, n);
	printf("dns_decode returned %d\n", i);
	return 0;
}
