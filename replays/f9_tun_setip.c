/* Replay of finding F9 (C13): peer text after a valid address reached system().
 * Build: cc -DLINUX -D_GNU_SOURCE -I<src> f9_tun_setip.c -o f9 ; run ./f9
 * Exit 0 = every command handed to system() is clean; 1 = peer text reached it. */
#include <stdio.h>
#include <string.h>
#include <stdlib.h>
static char last[1024];
static int my_system(const char *c) { snprintf(last, sizeof last, "%s", c); return 0; }
#define system my_system
void fd_set_close_on_exec(int fd) { (void) fd; }
#include "tun.c"
#undef system
int main(void) {
	int bad = 0;
	strcpy(if_name, "dns0");
	last[0] = 0;
	tun_setip("10.0.0.2 ;id", "10.0.0.1", 27);
	printf("command: %s\n", last);
	if (strstr(last, ";id")) bad = 1;
	last[0] = 0;
	tun_setip("10.0.0.2\n;reboot", "10.0.0.1", 27);
	if (strstr(last, "reboot")) bad = 1;
	return bad;
}
